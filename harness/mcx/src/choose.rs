//! Choice points and the prefix-replay explorer (DESIGN §3.1).

use rayon::prelude::*;
use std::sync::atomic::{AtomicBool, AtomicU64, Ordering};
use std::time::Instant;

#[derive(Copy, Clone, Debug, PartialEq, Eq, Hash)]
pub enum Kind {
    /// next driver event
    Action,
    /// which ready task is polled next
    Task,
    /// answer of a scripted transport / I/O object
    Io,
    /// inject a fault here or not
    Fault,
    /// the subject's own random pick (hook H2)
    Rand,
    /// next element of an input enumerator
    Data,
}

impl Kind {
    pub fn letter(self) -> char {
        match self {
            Kind::Action => 'A',
            Kind::Task => 'T',
            Kind::Io => 'I',
            Kind::Fault => 'F',
            Kind::Rand => 'R',
            Kind::Data => 'D',
        }
    }
}

/// Default cost model: scheduling / I/O / fault deviations cost 1, data and actions are free.
pub fn default_cost(k: Kind) -> u32 {
    match k {
        Kind::Task | Kind::Io | Kind::Fault => 1,
        Kind::Action | Kind::Data | Kind::Rand => 0,
    }
}

#[derive(Clone, Debug)]
pub struct Choice {
    pub kind: Kind,
    pub n: u32,
    pub picked: u32,
}

/// One execution's source of nondeterminism: replays `prefix`, then takes the default (0).
pub struct Chooser {
    prefix: Vec<u32>,
    pub trace: Vec<Choice>,
    /// set when a replayed choice was out of range (hard machinery error at the explorer)
    pub nondeterminism: Option<String>,
}

impl Chooser {
    pub fn new(prefix: &[u32]) -> Self {
        Self {
            prefix: prefix.to_vec(),
            trace: Vec::new(),
            nondeterminism: None,
        }
    }

    /// Returns a value in `0..n`. Points with a single alternative are not recorded.
    pub fn choose(&mut self, kind: Kind, n: usize) -> usize {
        assert!(n >= 1, "choose with no alternatives");
        if n == 1 {
            return 0;
        }
        let i = self.trace.len();
        let mut pick = 0u32;
        if i < self.prefix.len() {
            pick = self.prefix[i];
            if pick as usize >= n {
                self.nondeterminism = Some(format!(
                    "choice #{i} ({kind:?}) replayed as {pick} but only {n} alternatives exist"
                ));
                pick = 0;
            }
        }
        self.trace.push(Choice {
            kind,
            n: n as u32,
            picked: pick,
        });
        pick as usize
    }

    /// The choices this execution replays before it takes defaults.
    pub fn prefix(&self) -> &[u32] {
        &self.prefix
    }

    /// True while choices are still being replayed from the prefix.
    pub fn replaying(&self) -> bool {
        self.trace.len() < self.prefix.len()
    }

    pub fn picks(&self) -> Vec<u32> {
        self.trace.iter().map(|c| c.picked).collect()
    }

    pub fn deviations(&self, cost: fn(Kind) -> u32) -> u32 {
        self.trace
            .iter()
            .filter(|c| c.picked != 0)
            .map(|c| cost(c.kind))
            .sum()
    }

    /// Compact printable form, e.g. "T1 A3 I0".
    pub fn describe(&self) -> String {
        self.trace
            .iter()
            .map(|c| format!("{}{}/{}", c.kind.letter(), c.picked, c.n))
            .collect::<Vec<_>>()
            .join(" ")
    }
}

#[derive(Clone)]
pub struct ExploreCfg {
    /// maximal total deviation cost (iterated 0..=bound)
    pub bound: u32,
    pub cost: fn(Kind) -> u32,
    /// wall-clock cap; when hit, the last *completed* bound is reported
    pub deadline: Option<Instant>,
    /// execution cap per bound level (0 = none)
    pub max_runs: u64,
    pub parallel: bool,
    /// The subject has a source of nondeterminism the harness does not own (hash iteration order):
    /// a replayed prefix that no longer fits is counted as a diverged run instead of aborting.
    /// Exploration is then no longer a complete enumeration and is reported as such.
    pub tolerate_divergence: bool,
}

impl Default for ExploreCfg {
    fn default() -> Self {
        Self {
            bound: 0,
            cost: default_cost,
            deadline: None,
            max_runs: 0,
            parallel: true,
            tolerate_divergence: false,
        }
    }
}

#[derive(Debug, Default, Clone)]
pub struct ExploreStats {
    /// executions at the highest bound level run (complete or not)
    pub runs_last_level: u64,
    /// total executions over all levels (includes re-runs of lower levels)
    pub runs_total: u64,
    /// distinct executions (= runs of the last completed level)
    pub distinct_runs: u64,
    /// highest bound that was completely enumerated
    pub bound_completed: Option<u32>,
    pub capped: bool,
    pub max_trace_len: u64,
    /// runs whose replayed prefix did not fit (only with `tolerate_divergence`)
    pub diverged: u64,
}

/// What a single run tells the explorer.
#[derive(Copy, Clone, Debug, PartialEq, Eq)]
pub enum RunOutcome {
    /// explore this run's alternatives
    Continue,
    /// do not expand below this run (e.g. it already violated)
    Prune,
}

struct Shared<'a, F> {
    cfg: &'a ExploreCfg,
    run: &'a F,
    runs: AtomicU64,
    max_trace: AtomicU64,
    stop: AtomicBool,
    capped: AtomicBool,
    diverged: AtomicU64,
}

fn rec<F>(sh: &Shared<'_, F>, prefix: Vec<u32>, devs: u32, level: u32)
where
    F: Fn(&mut Chooser) -> RunOutcome + Sync,
{
    if sh.stop.load(Ordering::Relaxed) {
        return;
    }
    if let Some(d) = sh.cfg.deadline {
        if Instant::now() >= d {
            sh.capped.store(true, Ordering::Relaxed);
            sh.stop.store(true, Ordering::Relaxed);
            return;
        }
    }
    let n = sh.runs.fetch_add(1, Ordering::Relaxed) + 1;
    if sh.cfg.max_runs != 0 && n > sh.cfg.max_runs {
        sh.capped.store(true, Ordering::Relaxed);
        sh.stop.store(true, Ordering::Relaxed);
        return;
    }
    let mut ch = Chooser::new(&prefix);
    let outcome = (sh.run)(&mut ch);
    if ch.nondeterminism.is_some() || ch.trace.len() < prefix.len() {
        if sh.cfg.tolerate_divergence {
            sh.diverged.fetch_add(1, Ordering::Relaxed);
            return;
        }
        crate::machinery(format!(
            "NONDETERMINISM while replaying a prefix of {} choices: {} (execution made {} choices)",
            prefix.len(),
            ch.nondeterminism.clone().unwrap_or_else(|| "execution ended early".into()),
            ch.trace.len()
        ));
    }
    sh.max_trace
        .fetch_max(ch.trace.len() as u64, Ordering::Relaxed);
    if outcome == RunOutcome::Prune {
        return;
    }
    let mut children: Vec<(Vec<u32>, u32)> = Vec::new();
    for i in prefix.len()..ch.trace.len() {
        let c = &ch.trace[i];
        let cost = (sh.cfg.cost)(c.kind);
        if devs + cost > level {
            continue;
        }
        for alt in 1..c.n {
            let mut p: Vec<u32> = ch.trace[..i].iter().map(|c| c.picked).collect();
            p.push(alt);
            children.push((p, devs + cost));
        }
    }
    drop(ch);
    if sh.cfg.parallel {
        children
            .into_par_iter()
            .for_each(|(p, d)| rec(sh, p, d, level));
    } else {
        for (p, d) in children {
            rec(sh, p, d, level);
        }
    }
}

/// Enumerate every execution whose deviation cost is ≤ bound, for bound = 0, 1, …, cfg.bound
/// (iterative deepening; each level is a complete enumeration or is reported as capped).
pub fn explore<F>(cfg: &ExploreCfg, run: F) -> ExploreStats
where
    F: Fn(&mut Chooser) -> RunOutcome + Sync,
{
    let mut stats = ExploreStats::default();
    for level in 0..=cfg.bound {
        let sh = Shared {
            cfg,
            run: &run,
            runs: AtomicU64::new(0),
            max_trace: AtomicU64::new(0),
            stop: AtomicBool::new(false),
            capped: AtomicBool::new(false),
            diverged: AtomicU64::new(0),
        };
        rec(&sh, Vec::new(), 0, level);
        let runs = sh.runs.load(Ordering::Relaxed);
        stats.diverged += sh.diverged.load(Ordering::Relaxed);
        stats.runs_total += runs;
        stats.runs_last_level = runs;
        stats.max_trace_len = stats.max_trace_len.max(sh.max_trace.load(Ordering::Relaxed));
        if sh.capped.load(Ordering::Relaxed) {
            stats.capped = true;
            break;
        }
        stats.bound_completed = Some(level);
        stats.distinct_runs = runs;
    }
    stats
}

/// Explore only the top bound (no iterative deepening) — used when the caller iterates itself or
/// when all costs are 0 (pure data enumeration).
pub fn explore_flat<F>(cfg: &ExploreCfg, run: F) -> ExploreStats
where
    F: Fn(&mut Chooser) -> RunOutcome + Sync,
{
    let sh = Shared {
        cfg,
        run: &run,
        runs: AtomicU64::new(0),
        max_trace: AtomicU64::new(0),
        stop: AtomicBool::new(false),
        capped: AtomicBool::new(false),
        diverged: AtomicU64::new(0),
    };
    rec(&sh, Vec::new(), 0, cfg.bound);
    let runs = sh.runs.load(Ordering::Relaxed);
    let capped = sh.capped.load(Ordering::Relaxed);
    ExploreStats {
        runs_last_level: runs,
        runs_total: runs,
        distinct_runs: if capped { 0 } else { runs },
        bound_completed: if capped { None } else { Some(cfg.bound) },
        capped,
        max_trace_len: sh.max_trace.load(Ordering::Relaxed),
        diverged: sh.diverged.load(Ordering::Relaxed),
    }
}

#[cfg(test)]
mod test {
    use super::*;
    use std::collections::BTreeSet;
    use std::sync::Mutex;

    #[test]
    fn enumerates_all_vectors() {
        // 3 binary task choices; with bound 3 all 8 vectors must be seen exactly once.
        let seen = Mutex::new(Vec::new());
        let cfg = ExploreCfg {
            bound: 3,
            ..Default::default()
        };
        let st = explore_flat(&cfg, |ch| {
            let v: Vec<usize> = (0..3).map(|_| ch.choose(Kind::Task, 2)).collect();
            seen.lock().unwrap().push(v);
            RunOutcome::Continue
        });
        let s = seen.into_inner().unwrap();
        assert_eq!(s.len(), 8);
        assert_eq!(s.iter().cloned().collect::<BTreeSet<_>>().len(), 8);
        assert_eq!(st.runs_total, 8);
    }

    #[test]
    fn bound_limits_deviations() {
        let cfg = ExploreCfg {
            bound: 1,
            ..Default::default()
        };
        let st = explore(&cfg, |ch| {
            for _ in 0..4 {
                ch.choose(Kind::Task, 3);
            }
            RunOutcome::Continue
        });
        // 1 default + 4 positions * 2 alternatives
        assert_eq!(st.distinct_runs, 9);
        assert_eq!(st.bound_completed, Some(1));
    }
}
