//! Deterministic single-threaded executor (DESIGN §3.2). Same design as upstream's fuzz runtime:
//! every task has a wake flag; "ready" = woken since its last poll. Which ready task runs next is
//! decided by the caller (usually through a `Chooser`).

use crate::choose::{Chooser, Kind};
use std::future::Future;
use std::pin::Pin;
use std::sync::atomic::{AtomicBool, Ordering};
use std::sync::Arc;
use std::task::{Context, Poll, Wake, Waker};

pub type TaskId = usize;

struct Flag(AtomicBool);

impl Wake for Flag {
    fn wake(self: Arc<Self>) {
        self.0.store(true, Ordering::SeqCst);
    }
    fn wake_by_ref(self: &Arc<Self>) {
        self.0.store(true, Ordering::SeqCst);
    }
}

struct Slot {
    name: String,
    fut: Option<Pin<Box<dyn Future<Output = ()>>>>,
    flag: Arc<Flag>,
    finished: bool,
    dropped: bool,
    panicked: Option<String>,
    polls: u64,
    /// scheduled by the canonical schedule only when no normal task is ready (a slow peer)
    low: bool,
}

#[derive(Debug, Clone, PartialEq, Eq)]
pub enum StepResult {
    Pending,
    Done,
    Panicked(String),
}

#[derive(Debug, Clone, PartialEq, Eq)]
pub enum RunEnd {
    Quiescent,
    Horizon,
}

pub struct Exec {
    slots: Vec<Slot>,
    pub polls: u64,
    last: Option<TaskId>,
}

impl Default for Exec {
    fn default() -> Self {
        Self::new()
    }
}

impl Exec {
    pub fn new() -> Self {
        Self {
            slots: Vec::new(),
            polls: 0,
            last: None,
        }
    }

    pub fn spawn(&mut self, name: impl Into<String>, fut: impl Future<Output = ()> + 'static) -> TaskId {
        self.slots.push(Slot {
            name: name.into(),
            fut: Some(Box::pin(fut)),
            flag: Arc::new(Flag(AtomicBool::new(true))),
            finished: false,
            dropped: false,
            panicked: None,
            polls: 0,
            low: false,
        });
        self.slots.len() - 1
    }

    pub fn name(&self, id: TaskId) -> &str {
        &self.slots[id].name
    }

    pub fn len(&self) -> usize {
        self.slots.len()
    }

    pub fn is_empty(&self) -> bool {
        self.slots.is_empty()
    }

    pub fn is_finished(&self, id: TaskId) -> bool {
        self.slots[id].finished
    }

    pub fn is_alive(&self, id: TaskId) -> bool {
        self.slots[id].fut.is_some()
    }

    pub fn panicked(&self, id: TaskId) -> Option<&str> {
        self.slots[id].panicked.as_deref()
    }

    pub fn panics(&self) -> Vec<(String, String)> {
        self.slots
            .iter()
            .filter_map(|s| s.panicked.clone().map(|p| (s.name.clone(), p)))
            .collect()
    }

    pub fn is_ready(&self, id: TaskId) -> bool {
        let s = &self.slots[id];
        s.fut.is_some() && s.flag.0.load(Ordering::SeqCst)
    }

    /// Ready tasks in canonical order: the task that ran last first (if still ready), then
    /// ascending id.
    pub fn ready(&self) -> Vec<TaskId> {
        let mut v = Vec::new();
        for low in [false, true] {
            if let Some(l) = self.last {
                if self.slots[l].low == low && self.is_ready(l) {
                    v.push(l);
                }
            }
            for id in 0..self.slots.len() {
                if Some(id) != self.last && self.slots[id].low == low && self.is_ready(id) {
                    v.push(id);
                }
            }
        }
        v
    }

    /// Mark a task as slow: the canonical schedule runs it only when nothing else is ready
    /// (deviations can still pick it at any point).
    pub fn set_low_priority(&mut self, id: TaskId) {
        self.slots[id].low = true;
    }

    /// Ready tasks in plain ascending-id order (for engines that want a fixed priority order).
    pub fn ready_by_id(&self) -> Vec<TaskId> {
        (0..self.slots.len()).filter(|&id| self.is_ready(id)).collect()
    }

    /// Drop a task's future without completing it (the "task dropped" way of ending).
    pub fn drop_task(&mut self, id: TaskId) {
        let s = &mut self.slots[id];
        if let Some(f) = s.fut.take() {
            let r = std::panic::catch_unwind(std::panic::AssertUnwindSafe(move || drop(f)));
            if let Err(e) = r {
                s.panicked = Some(format!("panic in drop: {}", crate::panic_msg(&e)));
            }
            s.dropped = true;
        }
    }

    pub fn was_dropped(&self, id: TaskId) -> bool {
        self.slots[id].dropped
    }

    pub fn wake(&self, id: TaskId) {
        self.slots[id].flag.0.store(true, Ordering::SeqCst);
    }

    /// Poll task `id` once.
    pub fn step(&mut self, id: TaskId) -> StepResult {
        self.polls += 1;
        self.last = Some(id);
        let s = &mut self.slots[id];
        s.polls += 1;
        s.flag.0.store(false, Ordering::SeqCst);
        let Some(fut) = s.fut.as_mut() else {
            return StepResult::Done;
        };
        let waker = Waker::from(s.flag.clone());
        let mut cx = Context::from_waker(&waker);
        let r = std::panic::catch_unwind(std::panic::AssertUnwindSafe(|| fut.as_mut().poll(&mut cx)));
        match r {
            Ok(Poll::Pending) => StepResult::Pending,
            Ok(Poll::Ready(())) => {
                let f = s.fut.take();
                // dropping a completed future cannot run user code that matters, but be safe
                let _ = std::panic::catch_unwind(std::panic::AssertUnwindSafe(move || drop(f)));
                s.finished = true;
                StepResult::Done
            }
            Err(e) => {
                let msg = crate::panic_msg(&e);
                s.panicked = Some(msg.clone());
                let f = s.fut.take();
                let _ = std::panic::catch_unwind(std::panic::AssertUnwindSafe(move || drop(f)));
                StepResult::Panicked(msg)
            }
        }
    }

    /// Run until no task is ready, letting `ch` pick among ready tasks (canonical order, so pick 0
    /// = "keep running the current task / lowest id"). Returns Horizon if `max_polls` further
    /// polls did not reach quiescence.
    pub fn run_chosen(&mut self, ch: &mut Chooser, max_polls: u64) -> RunEnd {
        let start = self.polls;
        loop {
            let ready = self.ready();
            if ready.is_empty() {
                return RunEnd::Quiescent;
            }
            if self.polls - start >= max_polls {
                return RunEnd::Horizon;
            }
            let k = ch.choose(Kind::Task, ready.len());
            self.step(ready[k]);
        }
    }

    /// Run until quiescent in fixed ascending-id priority order, no choice points.
    pub fn run_fixed(&mut self, max_polls: u64) -> RunEnd {
        let start = self.polls;
        loop {
            let ready = self.ready_by_id();
            if ready.is_empty() {
                return RunEnd::Quiescent;
            }
            if self.polls - start >= max_polls {
                return RunEnd::Horizon;
            }
            self.step(ready[0]);
        }
    }

    pub fn unfinished(&self) -> Vec<TaskId> {
        (0..self.slots.len())
            .filter(|&i| self.slots[i].fut.is_some())
            .collect()
    }

    pub fn describe(&self) -> String {
        self.slots
            .iter()
            .enumerate()
            .map(|(i, s)| {
                let st = if s.panicked.is_some() {
                    "panicked"
                } else if s.finished {
                    "done"
                } else if s.dropped {
                    "dropped"
                } else if s.flag.0.load(Ordering::SeqCst) {
                    "ready"
                } else {
                    "waiting"
                };
                format!("{}:{}={}({})", i, s.name, st, s.polls)
            })
            .collect::<Vec<_>>()
            .join(" ")
    }
}
