//! mcx — shared machinery of the model-checking harness (DESIGN §3.1, §3.2, §7).
//!
//! * `Chooser`: every nondeterministic decision of every engine goes through `choose(kind, n)`.
//! * `explore`: prefix-replay, deviation-bounded, exhaustive exploration of all choice vectors.
//! * `Exec`: deterministic single-threaded executor (which ready task is polled next is a choice).
//! * `report`: evidence files, replay files, VIOLATION / KNOWN-FINDING lines, exit codes.

pub mod choose;
pub mod exec;
pub mod report;
pub mod watchdog;

pub use choose::{explore, Chooser, ExploreCfg, ExploreStats, Kind, RunOutcome};
pub use exec::{Exec, StepResult, TaskId};
pub use report::{Reporter, Tier};

/// Exit code for machinery failures (never a verdict).
pub const EXIT_MACHINERY: i32 = 2;

/// Abort the process with a machinery error.
pub fn machinery(msg: impl AsRef<str>) -> ! {
    eprintln!("MACHINERY-ERROR: {}", msg.as_ref());
    println!("MACHINERY-ERROR: {}", msg.as_ref());
    std::process::exit(EXIT_MACHINERY);
}

/// Run an engine's main body; a panic that escapes it is a machinery failure with its message
/// (exit 2), not a silent exit 101.
pub fn guard_main(f: impl FnOnce()) {
    if let Err(p) = catch(f) {
        machinery(format!("uncaught panic in the harness: {p}"));
    }
}

/// Run `f` under catch_unwind, returning the panic message on panic.
pub fn catch<R>(f: impl FnOnce() -> R) -> Result<R, String> {
    match std::panic::catch_unwind(std::panic::AssertUnwindSafe(f)) {
        Ok(r) => Ok(r),
        Err(e) => Err(panic_msg(&e)),
    }
}

pub fn panic_msg(e: &Box<dyn std::any::Any + Send>) -> String {
    let base = if let Some(s) = e.downcast_ref::<&str>() {
        s.to_string()
    } else if let Some(s) = e.downcast_ref::<String>() {
        s.clone()
    } else {
        "<non-string panic>".to_string()
    };
    let loc = LAST_PANIC_LOC.with(|l| l.borrow_mut().take());
    match loc {
        Some(l) => format!("{base} @ {l}"),
        None => base,
    }
}

thread_local! {
    static LAST_PANIC_LOC: std::cell::RefCell<Option<String>> = const { std::cell::RefCell::new(None) };
}

/// Install a quiet panic hook that remembers the panic location per thread (so that the millions of
/// expected-to-be-caught panics of a broken tree do not flood stderr, and replay files carry the
/// location).
pub fn install_quiet_panic_hook() {
    std::panic::set_hook(Box::new(|info| {
        let loc = info
            .location()
            .map(|l| format!("{}:{}", l.file(), l.line()));
        LAST_PANIC_LOC.with(|l| *l.borrow_mut() = loc);
    }));
}

/// FNV-1a, used wherever a stable (run-to-run identical) hash is needed.
pub fn fnv1a(bytes: &[u8]) -> u64 {
    let mut h: u64 = 0xcbf29ce484222325;
    for b in bytes {
        h ^= *b as u64;
        h = h.wrapping_mul(0x100000001b3);
    }
    h
}
