//! Turns an execution that never returns (an endless loop inside one poll of the subject) into a
//! verdict: every worker publishes what it is executing; a monitor thread reports an execution
//! that has been running for longer than the limit as a violation through the ordinary reporter
//! (replay file, evidence) and ends the process.

use crate::Reporter;
use serde_json::{json, Value};
use std::cell::Cell;
use std::sync::atomic::{AtomicBool, AtomicUsize, Ordering};
use std::sync::{Arc, Mutex};
use std::time::{Duration, Instant};

struct Slot {
    since: Instant,
    label: Arc<Value>,
    picks: Vec<u32>,
}

const SLOTS: usize = 256;

struct Inner {
    slots: Vec<Mutex<Option<Slot>>>,
    next: AtomicUsize,
    stop: AtomicBool,
}

pub struct ExecWatchdog {
    inner: Arc<Inner>,
}

pub struct ExecGuard<'a> {
    wd: &'a ExecWatchdog,
    idx: usize,
}

thread_local! {
    static MY_SLOT: Cell<usize> = const { Cell::new(usize::MAX) };
}

impl ExecWatchdog {
    /// `class`: violation class key; the witness is `{"case": label, "choices": picks, ..}`.
    pub fn start(rep: Arc<Reporter>, class: &'static str, limit: Duration) -> Self {
        let inner = Arc::new(Inner { slots: (0..SLOTS).map(|_| Mutex::new(None)).collect(), next: AtomicUsize::new(0), stop: AtomicBool::new(false) });
        let i2 = inner.clone();
        std::thread::spawn(move || loop {
            std::thread::sleep(Duration::from_millis(500));
            if i2.stop.load(Ordering::Relaxed) {
                return;
            }
            for s in &i2.slots {
                let g = s.lock().unwrap();
                if let Some(s) = g.as_ref() {
                    if s.since.elapsed() > limit {
                        let mut w = (*s.label).clone();
                        if let Some(o) = w.as_object_mut() {
                            o.insert("choices".into(), json!(s.picks));
                            o.insert("clause".into(), json!(class));
                            o.insert("detail".into(), json!(format!("one execution is still running after {} s: a task of the subject does not return from poll (endless loop without yielding)", limit.as_secs())));
                        }
                        rep.violation(class, s.picks.len() as u64, || w);
                        let mut cov = crate::report::coverage();
                        cov.insert("evaluations".into(), json!(0));
                        cov.insert("distinct_nontrivial".into(), json!(0));
                        cov.insert("rule".into(), json!("run aborted by the watchdog: one execution did not return"));
                        cov.insert("samples".into(), json!([(*s.label).clone()]));
                        rep.finish(cov, vec![]);
                    }
                }
            }
        });
        Self { inner }
    }

    pub fn enter(&self, label: &Arc<Value>, picks: &[u32]) -> ExecGuard<'_> {
        let idx = MY_SLOT.with(|c| {
            if c.get() == usize::MAX {
                c.set(self.inner.next.fetch_add(1, Ordering::Relaxed) % SLOTS);
            }
            c.get()
        });
        *self.inner.slots[idx].lock().unwrap() = Some(Slot { since: Instant::now(), label: label.clone(), picks: picks.to_vec() });
        ExecGuard { wd: self, idx }
    }

    pub fn stop(&self) {
        self.inner.stop.store(true, Ordering::Relaxed);
    }
}

impl Drop for ExecGuard<'_> {
    fn drop(&mut self) {
        *self.wd.inner.slots[self.idx].lock().unwrap() = None;
    }
}
